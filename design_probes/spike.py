"""Throw-away spike: AST -> z3 symbolic execution of three REAL rex functions.
Not the framework. Purpose: check that the engine internals sketched in DESIGN §3.6
(records, (array,lo,hi) deques, state merging avoided via path forking here, ghost loop
index, comprehension summaries, ghost events) fit the actual code shapes.
Run: python3-vt spike.py
"""
import ast, copy, sys, time
import z3

SRC = {}
def func_ast(path, qual):
    tree = SRC.setdefault(path, ast.parse(open(path).read()))
    node = tree
    for p in qual.split('.'):
        node = next(c for c in ast.iter_child_nodes(node) if isinstance(c, (ast.FunctionDef, ast.ClassDef)) and c.name == p)
    return node

R6 = z3.Function('R6', z3.RealSort(), z3.RealSort())
_x, _y = z3.Reals('_x _y')
R6_AX = [z3.ForAll([_x, _y], z3.Implies(_x <= _y, R6(_x) <= R6(_y))),
         z3.ForAll([_x], R6(R6(_x)) == R6(_x)),
         z3.ForAll([_x], z3.And(R6(_x) - _x <= 5e-7, _x - R6(_x) <= 5e-7))]

class Enum:  # concrete enum member
    def __init__(s, n): s.n = n
    def __repr__(s): return s.n
class Rec:   # mutable record
    def __init__(s, cls, **f): s.cls = cls; s.f = dict(f)
class Dq:    # deque of tuples of z3 terms: one array per component
    def __init__(s, arrs, lo, hi): s.arrs = list(arrs); s.lo = lo; s.hi = hi
    def length(s): return s.hi - s.lo
class Ret(Exception):
    def __init__(s, v): s.v = v
class Brk(Exception): pass

class State:
    def __init__(s):
        s.env = {}; s.pc = []; s.obl = []; s.ev = []; s.fresh = 0
    def fork(s):
        t = State(); t.env = s.env  # env (records) deep-copied below
        t = copy.copy(s); t.pc = list(s.pc); t.obl = list(s.obl); t.ev = list(s.ev)
        memo = {}
        t.env = {k: clone(v, memo) for k, v in s.env.items()}
        return t
def clone(v, memo):
    if isinstance(v, Rec):
        if id(v) in memo: return memo[id(v)]
        r = Rec(v.cls); memo[id(v)] = r; r.f = {k: clone(x, memo) for k, x in v.f.items()}; return r
    if isinstance(v, Dq): return Dq(v.arrs, v.lo, v.hi)
    if isinstance(v, list): return [clone(x, memo) for x in v]
    if isinstance(v, tuple): return tuple(clone(x, memo) for x in v)
    return v

def is_sym(v): return isinstance(v, z3.ExprRef)
def toz(v):
    if is_sym(v): return v
    if isinstance(v, bool): return z3.BoolVal(v)
    if isinstance(v, int): return z3.IntVal(v)
    if isinstance(v, float): return z3.RealVal(repr(v))
    raise TypeError(v)
def num2(a, b):
    a, b = toz(a), toz(b)
    if a.sort() != b.sort():
        if a.sort() == z3.IntSort(): a = z3.ToReal(a)
        if b.sort() == z3.IntSort(): b = z3.ToReal(b)
    return a, b

class Exec:
    """path-forking symbolic executor over a tiny Python subset"""
    def __init__(self, models, loop_inv=None):
        self.models = models; self.loop_inv = loop_inv or {}; self.done = []; self.loop_no = 0
    def run(self, fn, st):
        self.work = [(st, list(fn.body))]
        # simple: execute statements recursively with forking via exceptions -> use generator of states
        for s, r in self.block(fn.body, st): self.done.append((s, r))
        return self.done
    # block returns iterator of (state, ('ret', v) | None)
    def block(self, stmts, st):
        if not stmts:
            yield st, None; return
        head, rest = stmts[0], stmts[1:]
        for s1, r in self.stmt(head, st):
            if r is not None: yield s1, r
            else: yield from self.block(rest, s1)
    def cond_fork(self, c, st):
        """yield (state, bool) for feasible branches"""
        if not is_sym(c):
            yield st, bool(c); return
        for val in (True, False):
            s2 = st.fork(); s2.pc.append(c if val else z3.Not(c))
            sol = z3.Solver(); sol.set(timeout=5000); sol.add(R6_AX); sol.add(s2.pc)
            if sol.check() != z3.unsat: yield s2, val
    def stmt(self, n, st):
        if isinstance(n, ast.Expr):
            if isinstance(n.value, ast.Constant): yield st, None; return
            if isinstance(n.value, ast.Call) and ast.unparse(n.value.func) in ('self.log', 'utils.log', 'print'): yield st, None; return   # extraction drops logging
            for s, _ in self.expr(n.value, st): yield s, None
        elif isinstance(n, ast.Assign):
            for s, v in self.expr(n.value, st):
                for t in n.targets: self.assign(t, v, s)
                yield s, None
        elif isinstance(n, ast.AugAssign):
            for s, v in self.expr(ast.BinOp(left=n.target, op=n.op, right=n.value), st):
                self.assign(n.target, v, s); yield s, None
        elif isinstance(n, ast.Return):
            if n.value is None: yield st, ('ret', None)
            else:
                for s, v in self.expr(n.value, st): yield s, ('ret', v)
        elif isinstance(n, ast.If):
            for s, c in self.expr(n.test, st):
                for s2, b in self.cond_fork(c, s):
                    yield from self.block(n.body if b else n.orelse, s2)
        elif isinstance(n, ast.Assert):
            for s, c in self.expr(n.test, st):
                s.obl.append(('assert@%d' % n.lineno, list(s.pc), toz(c))); s.pc.append(toz(c)); yield s, None
        elif isinstance(n, ast.For):
            yield from self.for_loop(n, st)
        elif isinstance(n, ast.Pass): yield st, None
        else: raise NotImplementedError(ast.dump(n)[:80])
    def for_loop(self, n, st):
        """for <tuple> in <Dq>: body-with-break ; needs invariant(loop_no) : (k, env) -> z3 bool
        Rule: havoc loop-modified vars, assume inv(k) ; obligations init/preserve ; exits: break or k==len"""
        self.loop_no += 1; inv = self.loop_inv[self.loop_no]
        (s, dq), = list(self.expr(n.iter, st))
        assert isinstance(dq, Dq)
        mod = sorted({t.id for x in ast.walk(n) for t in ([x.target] if isinstance(x, ast.AugAssign) else (x.targets if isinstance(x, ast.Assign) else [])) if isinstance(t, ast.Name)})
        # init
        s.obl.append((f'loop{self.loop_no}.init', list(s.pc), inv(z3.IntVal(0), s.env, dq)))
        k = z3.Int(f'__k{self.loop_no}')
        for m in mod:
            old = s.env[m]; s.env[m] = z3.Const(f'{m}!l{self.loop_no}', toz(old).sort())
        s.pc += [k >= 0, k <= dq.length(), inv(k, s.env, dq)]
        # exit by exhaustion
        s_end = s.fork(); s_end.pc.append(k == dq.length()); yield s_end, None
        # one more iteration
        s_it = s.fork(); s_it.pc.append(k < dq.length())
        elems = tuple(z3.Select(a, dq.lo + k) for a in dq.arrs)
        self.assign(n.target, elems if len(elems) > 1 else elems[0], s_it)
        for s2, r in self.block_brk(n.body, s_it):
            if r == 'break': yield s2, None
            elif r is None:
                s2.obl.append((f'loop{self.loop_no}.preserve', list(s2.pc), inv(k + 1, s2.env, dq)))
            else: yield s2, r
    def block_brk(self, stmts, st):
        if not stmts:
            yield st, None; return
        head, rest = stmts[0], stmts[1:]
        if isinstance(head, ast.Break): yield st, 'break'; return
        if isinstance(head, ast.If):
            for s, c in self.expr(head.test, st):
                for s2, b in self.cond_fork(c, s):
                    for s3, r in self.block_brk(head.body if b else head.orelse, s2):
                        if r is None: yield from self.block_brk(rest, s3)
                        else: yield s3, r
            return
        for s1, r in self.stmt(head, st):
            if r is not None: yield s1, r
            else: yield from self.block_brk(rest, s1)
    def assign(self, t, v, st):
        if isinstance(t, ast.Name): st.env[t.id] = v
        elif isinstance(t, ast.Attribute):
            (s, o), = list(self.expr(t.value, st)); o.f[t.attr] = v
        elif isinstance(t, ast.Tuple):
            for tt, vv in zip(t.elts, v): self.assign(tt, vv, st)
        else: raise NotImplementedError(ast.dump(t))
    # expressions: yield (state, value); forks only on short-circuit/ifexp with symbolic test
    def expr(self, n, st):
        if isinstance(n, ast.Constant): yield st, n.value
        elif isinstance(n, ast.Name): yield st, self.lookup(n.id, st)
        elif isinstance(n, ast.Attribute):
            for s, o in self.expr(n.value, st): yield s, self.getattr(o, n.attr, s)
        elif isinstance(n, ast.JoinedStr): yield st, '<fstr>'
        elif isinstance(n, ast.Tuple) or isinstance(n, ast.List):
            vals = []; s = st
            for e in n.elts:
                (s, v), = list(self.expr(e, s)); vals.append(v)
            yield s, (tuple(vals) if isinstance(n, ast.Tuple) else vals)
        elif isinstance(n, ast.BinOp):
            for s, a in self.expr(n.left, st):
                for s2, b in self.expr(n.right, s): yield s2, self.binop(n.op, a, b)
        elif isinstance(n, ast.UnaryOp):
            for s, a in self.expr(n.operand, st):
                if isinstance(n.op, ast.Not): yield s, (z3.Not(a) if is_sym(a) else (not a))
                elif isinstance(n.op, ast.USub): yield s, -a
        elif isinstance(n, ast.BoolOp):
            yield from self.boolop(n, st)
        elif isinstance(n, ast.Compare):
            yield from self.compare(n, st)
        elif isinstance(n, ast.IfExp):
            for s, c in self.expr(n.test, st):
                if is_sym(c):
                    (s1, a), = list(self.expr(n.body, s)); (s2, b), = list(self.expr(n.orelse, s1))
                    if a is b: yield s2, a
                    elif isinstance(a, Rec) or isinstance(b, Rec) or a is None or b is None:
                        for s3, bb in self.cond_fork(c, s2): yield s3, (a if bb else b)
                    else:
                        a_, b_ = num2(a, b); yield s2, z3.If(c, a_, b_)
                else: yield from self.expr(n.body if c else n.orelse, s)
        elif isinstance(n, ast.Call): yield from self.call(n, st)
        elif isinstance(n, ast.Subscript):
            for s, o in self.expr(n.value, st):
                for s2, i in self.expr(n.slice, s):
                    if isinstance(o, Dq):
                        s2.obl.append(('index-in-range@%d' % n.lineno, list(s2.pc), z3.And(toz(i) >= 0, toz(i) < o.length())))
                        v = tuple(z3.Select(a, o.lo + toz(i)) for a in o.arrs); yield s2, (v if len(v) > 1 else v[0])
                    else: yield s2, o[i]
        elif isinstance(n, ast.ListComp) or isinstance(n, ast.GeneratorExp):
            yield st, ('comp', n)
        else: raise NotImplementedError(ast.dump(n)[:100])
    def lookup(self, name, st):
        if name in st.env: return st.env[name]
        if name in self.models: return self.models[name]
        raise KeyError(name)
    def getattr(self, o, attr, st):
        if isinstance(o, Rec):
            if attr in o.f: return o.f[attr]
            return ('method', o, attr)
        if isinstance(o, dict): return o[attr]
        if isinstance(o, Dq): return ('dqmethod', o, attr)
        raise NotImplementedError((o, attr))
    def binop(self, op, a, b):
        if not is_sym(a) and not is_sym(b):
            return {ast.Add: lambda: a + b, ast.Sub: lambda: a - b, ast.Mult: lambda: a * b, ast.Div: lambda: a / b}[type(op)]()
        a, b = num2(a, b)
        if isinstance(op, ast.Add): return a + b
        if isinstance(op, ast.Sub): return a - b
        if isinstance(op, ast.Mult): return a * b
        if isinstance(op, ast.Div): return z3.ToReal(a) / z3.ToReal(b) if a.sort() == z3.IntSort() else a / b
        raise NotImplementedError(op)
    def boolop(self, n, st):
        isand = isinstance(n.op, ast.And)
        def go(i, s, acc):
            if i == len(n.values): yield s, acc; return
            for s1, v in self.expr(n.values[i], s):
                if not is_sym(v) and not is_sym(acc):
                    if (isand and not v) or ((not isand) and v): yield s1, bool(v); continue
                    yield from go(i + 1, s1, bool(v) if acc is None else (acc and v if isand else acc or v))
                else:
                    av = toz(True if acc is None else acc) if isand else toz(False if acc is None else acc)
                    yield from go(i + 1, s1, z3.And(av, toz(v)) if isand else z3.Or(av, toz(v)))
        yield from go(0, st, None)
    def compare(self, n, st):
        for s, left in self.expr(n.left, st):
            res = None; cur = left; s2 = s
            for op, rn in zip(n.ops, n.comparators):
                (s2, r), = list(self.expr(rn, s2))
                c = self.cmp(op, cur, r); cur = r
                res = c if res is None else (z3.And(toz(res), toz(c)) if (is_sym(res) or is_sym(c)) else (res and c))
            yield s2, res
    def cmp(self, op, a, b):
        if isinstance(op, (ast.In, ast.NotIn)):
            if any(is_sym(x) for x in b) or is_sym(a): r = z3.Or([toz(a) == toz(x) for x in b])
            else: r = any(a is x or a == x for x in b)
            return (z3.Not(r) if is_sym(r) else (not r)) if isinstance(op, ast.NotIn) else r
        if isinstance(op, (ast.Is, ast.IsNot)):
            r = a is b; return r if isinstance(op, ast.Is) else (not r)
        if not is_sym(a) and not is_sym(b):
            import operator as o
            return {ast.Eq: o.eq, ast.NotEq: o.ne, ast.Lt: o.lt, ast.LtE: o.le, ast.Gt: o.gt, ast.GtE: o.ge}[type(op)](a, b)
        a, b = num2(a, b)
        return {ast.Eq: lambda: a == b, ast.NotEq: lambda: a != b, ast.Lt: lambda: a < b, ast.LtE: lambda: a <= b, ast.Gt: lambda: a > b, ast.GtE: lambda: a >= b}[type(op)]()
    def call(self, n, st):
        for s, f in self.expr(n.func, st):
            args = []
            for a in n.args:
                if isinstance(a, ast.Starred):
                    (s, v), = list(self.expr(a.value, s)); args.extend(v); continue
                (s, v), = list(self.expr(a, s)); args.append(v)
            kw = {}
            for k in n.keywords:
                (s, v), = list(self.expr(k.value, s)); kw[k.arg] = v
            yield from self.apply(f, args, kw, s, n)
    def apply(self, f, args, kw, s, n):
        if isinstance(f, tuple) and f[0] == 'method':
            _, o, name = f
            m = self.models.get((o.cls, name))
            if m is None: raise NotImplementedError((o.cls, name))
            yield from m(self, s, o, *args, **kw); return
        if isinstance(f, tuple) and f[0] == 'dqmethod':
            _, dq, name = f
            if name == 'append':
                v = args[0]; v = v if isinstance(v, tuple) else (v,)
                dq.arrs = [z3.Store(a, dq.hi, toz(x)) for a, x in zip(dq.arrs, v)]; dq.hi = dq.hi + 1; yield s, None
            elif name == 'popleft':
                s.obl.append(('popleft-nonempty@%d' % n.lineno, list(s.pc), dq.length() > 0))
                v = tuple(z3.Select(a, dq.lo) for a in dq.arrs); dq.lo = dq.lo + 1; yield s, (v if len(v) > 1 else v[0])
            else: raise NotImplementedError(name)
            return
        if callable(f): yield from f(self, s, *args, **kw); return
        raise NotImplementedError(f)

# ---------------- builtin models -----------------
def m_len(ex, s, x):
    yield s, (x.length() if isinstance(x, Dq) else len(x))
def m_float(ex, s, x): yield s, x
def m_round(ex, s, x, nd): assert nd == 6; yield s, R6(toz(x))
def m_max(ex, s, *a):
    r = toz(a[0])
    for x in a[1:]:
        r, x = num2(r, x); r = z3.If(x > r, x, r)
    yield s, r
def m_any(ex, s, comp):
    # any(ts > ts_step for seq, ts in self.q_ts_input)  -> Exists over deque indices
    _, node = comp; gen = node.generators[0]
    (s, dq), = list(ex.expr(gen.iter, s))
    j = z3.Int('__j%d' % node.lineno); s2 = s.fork()
    ex.assign(gen.target, tuple(z3.Select(a, dq.lo + j) for a in dq.arrs), s2)
    (_, body), = list(ex.expr(node.elt, s2))
    yield s, z3.Exists([j], z3.And(j >= 0, j < dq.length(), body))
def m_range(ex, s, x): yield s, ('range', x)
BUILTINS = dict(len=m_len, float=m_float, round=m_round, max=m_max, any=m_any, range=m_range)

def r6_terms(es):
    seen = {}; out = []
    def walk(e):
        if e.get_id() in seen: return
        seen[e.get_id()] = 1
        if z3.is_app(e):
            if e.decl().name() == 'R6': out.append(e.arg(0))
            for c in e.children(): walk(c)
        elif z3.is_quantifier(e): walk(e.body())
    for e in es: walk(e)
    return out
def ground(pc, goal):
    """refutation mode: drop quantified hypotheses after instantiating them on the index terms in use; ground R6 axioms"""
    hyps = []; idx_terms = set()
    def sel_idx(e, acc, seen):
        if e.get_id() in seen: return
        seen.add(e.get_id())
        if z3.is_app(e):
            if e.decl().kind() == z3.Z3_OP_SELECT: acc.append(e.arg(1))
            for c in e.children(): sel_idx(c, acc, seen)
    acc = []; seen = set()
    for e in [x for x in pc if not z3.is_quantifier(x)] + [goal]: sel_idx(e, acc, seen)
    acc = [a for a in acc if not any(z3.is_var(x) for x in [a])]
    for h in pc:
        if z3.is_quantifier(h) and h.is_forall():
            n = h.num_vars()
            import itertools
            for combo in itertools.islice(itertools.product(acc, repeat=n), 200):
                try: hyps.append(z3.substitute_vars(h.body(), *reversed(combo)))
                except z3.Z3Exception: pass
        else: hyps.append(h)
    ts = r6_terms(hyps + [goal]); ax = []
    for t in ts:
        ax += [R6(R6(t)) == R6(t), R6(t) - t <= 5e-7, t - R6(t) <= 5e-7]
    for t in ts:
        for u in ts:
            if t.get_id() != u.get_id(): ax.append(z3.Implies(t <= u, R6(t) <= R6(u)))
    return hyps + ax
def discharge(name, st_list, extra_obl=()):
    tot = 0; bad = []
    for st, r in st_list:
        for (nm, pc, goal) in st.obl:
            sol = z3.Solver(); sol.set(timeout=5000); sol.add(R6_AX); sol.add(pc); sol.add(z3.Not(goal)); tot += 1
            res = sol.check()
            if res != z3.unsat:
                s2 = z3.Solver(); s2.set(timeout=20000); s2.add(ground(pc, goal)); s2.add(z3.Not(goal)); res2 = s2.check()
                bad.append((nm, 'prove:%s refute:%s' % (res, res2), s2.model() if res2 == z3.sat else None))
    return tot, bad

# ======================================================================================
# 1. Connection.set_delay  (C16)
# ======================================================================================
def demo_set_delay():
    fn = func_ast('/repo/rex/node.py', 'Connection.set_delay')
    Dist = z3.DeclareSort('Dist')
    old_dd, new_dd = z3.Consts('old_dd new_dd', Dist)
    is_distrax = z3.Function('is_distrax', Dist, z3.BoolSort()); wrap = z3.Function('wrap', Dist, Dist)
    res = []
    for given in (True, False):
        st = State(); selfr = Rec('Connection', delay_dist=old_dd, delay=z3.Real('old_delay'))
        st.env = dict(self=selfr, delay_dist=(new_dd if given else None), delay=z3.Real('delay'))
        st.pc += [z3.Not(is_distrax(old_dd))]   # class invariant: stored dist is already wrapped
        def m_isinstance(ex, s, x, cls):
            if cls == 'distrax.Distribution': yield s, is_distrax(x)
            else: yield s, True   # DelayDistribution (class invariant after wrapping) -- spike shortcut
        models = dict(BUILTINS, isinstance=m_isinstance, base={'StaticDist': {'create': lambda ex, s, x: iter([(s, wrap(x))])}, 'DelayDistribution': 'DelayDistribution'},
                      distrax={'Distribution': 'distrax.Distribution'})
        ex = Exec(models)
        for s, r in ex.run(fn, st):
            dd = s.env['self'].f['delay_dist']
            want = z3.If(is_distrax(new_dd), wrap(new_dd), new_dd) if given else old_dd
            s.obl.append(('ensures delay_dist == (given ? wrap(given) : old)', list(s.pc), dd == want))
            res.append((s, r))
    tot, bad = discharge('set_delay', res)
    print(f"[set_delay] paths={len(res)} obligations={tot} failed={[(b[0], str(b[1])) for b in bad]}")

# ======================================================================================
# 2. _AsyncConnectionWrapper.push_ts_input  (C03/C04)  -- callees abstracted as events
# ======================================================================================
ASYNC = {k: Enum(k) for k in ['READY', 'STARTING', 'READY_TO_START', 'RUNNING', 'STOPPING', 'STOPPED']}
CLOCK = {k: Enum(k) for k in ['SIMULATED', 'WALL_CLOCK']}
def mk_conn(st, blocking, state):
    A = lambda nm, sort: z3.Array(nm, z3.IntSort(), sort)
    dq = lambda nm, sorts: Dq([A(f'{nm}_{i}', so) for i, so in enumerate(sorts)], z3.Int(nm + '_lo'), z3.Int(nm + '_hi'))
    conn = Rec('Conn', _state=state, _prev_recv_sc=z3.Real('prev_recv'),
               q_sample=dq('q_sample', [z3.RealSort()]), q_zip_delay=dq('q_zip_delay', [z3.RealSort()]),
               q_ts_input=dq('q_ts_input', [z3.IntSort(), z3.RealSort()]), q_ts_next_step=dq('q_ts_next_step', [z3.IntSort(), z3.RealSort()]),
               q_expected_select=dq('q_exp_sel', [z3.RealSort(), z3.IntSort()]),
               input_node=Rec('Node', eps=z3.Int('node_eps'), _clock=CLOCK['SIMULATED']),
               connection=Rec('Connection', blocking=blocking, skip=z3.Bool('skip'), jitter=Enum('LATEST')))
    for q in ['q_sample', 'q_zip_delay', 'q_ts_input', 'q_ts_next_step', 'q_exp_sel']:
        st.pc.append(z3.Int(q + '_lo') <= z3.Int(q + '_hi'))
    return conn
def ev_model(name):
    def m(ex, s, o, *a, **k):
        s.ev.append((name, a)); yield s, None
    return m
def demo_push_ts_input():
    fn = func_ast('/repo/rex/asynchronous.py', '_AsyncConnectionWrapper.push_ts_input')
    res = []
    for state in [ASYNC['RUNNING'], ASYNC['STOPPED']]:
        for blocking in (True, False):
            st = State(); conn = mk_conn(st, blocking, state)
            hdr = Rec('Header', eps=z3.Int('h_eps'), seq=z3.Int('h_seq'), ts=z3.Real('h_ts'))
            st.env = dict(self=conn, msg=z3.Real('msg'), header=hdr)
            qs = conn.f['q_sample']
            # requires: samples are non-negative (StaticDist.sample contract), sample queue non-empty (refill path not in spike)
            j = z3.Int('j'); st.pc += [qs.length() > 0, z3.ForAll([j], z3.Select(qs.arrs[0], j) >= 0)]
            models = dict(BUILTINS, Async=ASYNC, Clock=CLOCK)
            for nm in ['log', 'push_zip', 'push_ts_max', 'push_expected_nonblocking']: models[('Conn', nm)] = ev_model(nm)
            pre = clone(conn, {})
            ex = Exec(models)
            for s, r in ex.run(fn, st):
                new = s.env['self']; calls = [e[0] for e in s.ev if e[0] != 'log']
                accepted = z3.And(state is ASYNC['RUNNING'], hdr.f['eps'] == pre.f['input_node'].f['eps']) if state is ASYNC['RUNNING'] else z3.BoolVal(False)
                delay = z3.Select(pre.f['q_sample'].arrs[0], pre.f['q_sample'].lo)
                recv = R6(z3.If(hdr.f['ts'] + delay > pre.f['_prev_recv_sc'], hdr.f['ts'] + delay, pre.f['_prev_recv_sc']))
                qi = new.f['q_ts_input']
                if calls:   # accepted path
                    post = z3.And(new.f['_prev_recv_sc'] == recv,
                                  qi.hi == pre.f['q_ts_input'].hi + 1, z3.Select(qi.arrs[1], qi.hi - 1) == recv, z3.Select(qi.arrs[0], qi.hi - 1) == hdr.f['seq'],
                                  new.f['q_zip_delay'].hi == pre.f['q_zip_delay'].hi + 1,
                                  z3.Select(new.f['q_zip_delay'].arrs[0], new.f['q_zip_delay'].hi - 1) == recv - hdr.f['ts'],
                                  z3.Implies(R6(pre.f['_prev_recv_sc']) == pre.f['_prev_recv_sc'], recv >= pre.f['_prev_recv_sc']),   # FIFO
                                  recv >= hdr.f['ts'] - 5e-7)
                    s.obl.append(('ensures accepted-path law', list(s.pc), post))
                    s.obl.append(('ensures LITERAL recv >= sent (expected to FAIL: known finding)', list(s.pc), recv >= hdr.f['ts']))
                    s.obl.append(('ensures dispatch', list(s.pc), z3.BoolVal(calls == ['push_zip', 'push_ts_max' if blocking else 'push_expected_nonblocking'])))
                else:       # rejected path: empty frame
                    s.obl.append(('ensures empty frame when not running / other episode', list(s.pc),
                                  z3.And(new.f['_prev_recv_sc'] == pre.f['_prev_recv_sc'], qi.hi == pre.f['q_ts_input'].hi, new.f['q_sample'].lo == pre.f['q_sample'].lo)))
                res.append((s, r))
    tot, bad = discharge('push_ts_input', res)
    print(f"[push_ts_input] paths={len(res)} obligations={tot}")
    for nm, r, m in bad:
        print("   FAILED:", nm, r)
        if m is not None and 'LITERAL' in nm:
            print("     model: h_ts =", m.eval(z3.Real('h_ts')), " delay =", m.eval(z3.Select(z3.Array('q_sample_0', z3.IntSort(), z3.RealSort()), z3.Int('q_sample_lo'))), " prev =", m.eval(z3.Real('prev_recv')))

# ======================================================================================
# 3. push_expected_nonblocking (LATEST) : loop invariant with ghost index, comprehension summary
# ======================================================================================
def demo_push_expected_nonblocking():
    fn = func_ast('/repo/rex/asynchronous.py', '_AsyncConnectionWrapper.push_expected_nonblocking')
    JIT = {'LATEST': Enum('LATEST'), 'BUFFER': Enum('BUFFER')}
    st = State(); conn = mk_conn(st, False, ASYNC['RUNNING']); conn.f['connection'].f['jitter'] = JIT['LATEST']
    st.env = dict(self=conn)
    qin = conn.f['q_ts_input']
    a, b = z3.Ints('a b')
    st.pc.append(z3.ForAll([a, b], z3.Implies(z3.And(qin.lo <= a, a <= b, b < qin.hi), z3.Select(qin.arrs[1], a) <= z3.Select(qin.arrs[1], b))))  # wf: FIFO
    pre = clone(conn, {})
    def brk(ts, env_conn, t): return z3.Or(ts > t, z3.And(env_conn.f['connection'].f['skip'], ts == t))
    def inv(k, env, dq):   # loop 2 in the function (loop 1 is the BUFFER loop, unreachable for LATEST)
        t = env['ts_step']; j = z3.Int('__ij')
        return z3.And(toz(env['num_msgs']) == k, z3.ForAll([j], z3.Implies(z3.And(0 <= j, j < k), z3.Not(brk(z3.Select(dq.arrs[1], dq.lo + j), env['self'], t)))))
    def m_comp_popleft(ex, s, comp):   # [self.q_ts_input.popleft() for _ in range(num_msgs)] -> drop num_msgs heads
        raise NotImplementedError
    models = dict(BUILTINS, Async=ASYNC, Clock=CLOCK, Jitter=JIT)
    for nm in ['log', 'push_selection']: models[('Conn', nm)] = ev_model(nm)
    class Ex2(Exec):
        def stmt(self, n, st):
            # comprehension-as-statement with popleft side effect: summarise
            if isinstance(n, ast.Expr) and isinstance(n.value, ast.ListComp) and 'popleft' in ast.unparse(n.value):
                dq = st.env['self'].f['q_ts_input']; k = toz(st.env['num_msgs'])
                st.obl.append(('drop-k-nonempty@%d' % n.lineno, list(st.pc), z3.And(k >= 0, k <= dq.length())))
                dq.lo = dq.lo + k; yield st, None; return
            yield from super().stmt(n, st)
        def cmp(self, op, a, b):
            return super().cmp(op, a, b)
    ex = Ex2(models, loop_inv={1: inv})
    # the function has: assert not blocking (concrete), guards, for loop in LATEST branch (loop ordinal 1 since BUFFER branch is pruned concretely)
    res = []
    for s, r in ex.run(fn, st):
        new = s.env['self']; fired = any(e[0] == 'push_selection' for e in s.ev)
        if fired:
            t = z3.Select(pre.f['q_ts_next_step'].arrs[1], pre.f['q_ts_next_step'].lo)
            k = new.f['q_ts_input'].lo - pre.f['q_ts_input'].lo
            j = z3.Int('__pj'); sel = lambda idx: z3.Select(pre.f['q_ts_input'].arrs[1], pre.f['q_ts_input'].lo + idx)
            post = z3.And(k >= 0, k <= pre.f['q_ts_input'].length(),
                          z3.ForAll([j], z3.Implies(z3.And(0 <= j, j < k), z3.Not(brk(sel(j), pre, t)))),
                          brk(sel(k), pre, t), k < pre.f['q_ts_input'].length(),           # stops AT the first not-yet-arrived message, inside the queue
                          new.f['q_ts_next_step'].lo == pre.f['q_ts_next_step'].lo + 1,
                          z3.Select(new.f['q_expected_select'].arrs[1], new.f['q_expected_select'].hi - 1) == k,
                          z3.Select(new.f['q_expected_select'].arrs[0], new.f['q_expected_select'].hi - 1) == t)
            s.obl.append(('ensures consumption rule (LATEST/skip): exactly the arrived prefix', list(s.pc), post))
        else:
            s.obl.append(('ensures empty frame when guard false', list(s.pc), z3.And(new.f['q_ts_input'].lo == pre.f['q_ts_input'].lo, new.f['q_ts_next_step'].lo == pre.f['q_ts_next_step'].lo)))
        res.append((s, r))
    tot, bad = discharge('push_expected_nonblocking', res)
    print(f"[push_expected_nonblocking/LATEST] paths={len(res)} (fired={sum(any(e[0]=='push_selection' for e in s.ev) for s,_ in res)}) obligations={tot} failed={[(b[0], str(b[1])) for b in bad]}")

if __name__ == "__main__":
    t0 = time.time()
    demo_set_delay(); demo_push_ts_input(); demo_push_expected_nonblocking()
    print("wall %.1fs" % (time.time() - t0))
