import sys; sys.path.insert(0,'/repo'); sys.path.insert(0,'/repo/tests/unit')
import jax, jax.numpy as jnp, distrax
from rex.base import Extend, Chain, Denormalize, StaticDist, TrainableDist
from test_utils import Node
# C17 extend
try:
    base_params = {"a": jnp.array(1.0), "b": jnp.array(1.5)}
    opt_params = {"a": None, "b": jnp.array(0.0)}
    t = Extend.init(base_params, opt_params)
    print("extend ok", t.apply(opt_params))
except Exception as e:
    import traceback; traceback.print_exc(limit=3)
# C16 set_delay
n = Node(name="n", rate=10, delay_dist=distrax.Deterministic(0.01))
old = n.delay_dist
n.set_delay(delay_dist=distrax.Deterministic(0.05), delay=0.05)
print("node set_delay changed dist:", n.delay_dist is not old, n.delay_dist.dist.mean(), n.delay)
m = Node(name="m", rate=10)
m.connect(n, delay_dist=distrax.Deterministic(0.01))
c = m.inputs["n"]; oldc = c.delay_dist
c.set_delay(delay_dist=distrax.Deterministic(0.07), delay=0.07)
print("conn set_delay changed dist:", c.delay_dist is not oldc, c.delay_dist.dist.mean(), c.delay, "phase m", m.phase)
