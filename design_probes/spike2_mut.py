import ast, spike, spike2
src = open('/repo/rex/base.py').read()
mut = src.replace("new_a = jnp.array(rolled_a).at[-1].set(jnp.array(new))", "new_a = jnp.array(rolled_a).at[0].set(jnp.array(new))")
assert mut != src
spike.SRC['/repo/rex/base.py'] = ast.parse(mut)
spike2.demo_input_state_push()
src = open('/repo/rex/partition_runner.py').read()
mut = src.replace("mod_seq = seq % size\n    # new_buffer", "mod_seq = (seq + 1) % size\n    # new_buffer")
assert mut != src
spike.SRC['/repo/rex/partition_runner.py'] = ast.parse(mut)
try:
    spike2.demo_update_output()
except Exception as e:
    print("update_output mutant:", type(e).__name__, e)
