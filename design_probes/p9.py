import sys, os, itertools; sys.path.insert(0,'/repo'); sys.path.insert(0,'/repo/tests/unit')
import jax, jax.numpy as jnp, numpy as np, distrax
from distrax import Deterministic, Normal
from rex.artificial import generate_graphs
from rex.base import TrainableDist
from rex.graph import Graph
import rex.constants as const
from test_utils import Node
def static_replay(graph):
    """replay write/read order of Graph.timings against the ring sizes; return list of wrong reads"""
    T = jax.tree_util.tree_map(np.array, graph.timings)
    sizes = {k: (max(v)+graph._extra_padding if len(v)>0 else max(1, graph._extra_padding)) for k,v in graph._buffer_sizes.items()}
    gens = T.to_generation()
    sup_slot = graph._supervisor_slot
    bad=[]; nreads=0
    n_eps, n_steps = next(iter(T.slots.values())).run.shape
    for e in range(n_eps):
        buf = {k: {} for k in sizes}   # slot index -> seq written
        def write(kind, seq): buf[kind][seq % sizes[kind]] = seq
        def read(kind, seq):
            s = buf[kind].get(seq % sizes[kind], None)
            return s
        for p in range(n_steps):
            for gi, gen in enumerate(gens):
                pending=[]
                for sname, s in gen.items():
                    if not s.run[e,p]: continue
                    for src, w in s.windows.items():
                        for q in w.seq[e,p]:
                            nreads+=1
                            got = read(src, q)
                            want = q if q>=0 else None
                            if got != want: bad.append((e,p,gi,sname,src,int(q),got))
                    pending.append((s.kind, int(s.seq[e,p])))
                for k,q in pending: write(k,q)   # writes visible after the generation (supervisor: after its step)
    return bad, nreads, sizes
rng = np.random.RandomState(0)
tot=0
for trial in range(6):
    rates = rng.choice([5,7,10,13,20,40], size=3)
    a = Node(name="a", rate=float(rates[0]), delay_dist=Normal(0.5/rates[0], 0.2/rates[0]))
    b = Node(name="b", rate=float(rates[1]), delay_dist=Deterministic(0.3/rates[1]))
    c = Node(name="c", rate=float(rates[2]), delay_dist=Deterministic(0.1/rates[2]))
    b.connect(a, window=int(rng.randint(1,4)), blocking=False, delay_dist=Normal(0.02,0.01))
    c.connect(b, window=int(rng.randint(1,4)), blocking=False, delay_dist=TrainableDist.create(0.01,0.0,0.05) if trial%2 else Deterministic(0.01))
    c.connect(a, window=int(rng.randint(1,3)), blocking=False, delay_dist=Deterministic(0.0))
    a.connect(c, window=int(rng.randint(1,3)), blocking=False, skip=True, delay_dist=Deterministic(0.005))
    nodes={"a":a,"b":b,"c":c}
    g = generate_graphs(nodes, 1.0, num_episodes=2, rng=jax.random.PRNGKey(trial))
    for mode in [const.Supergraph.MCS, const.Supergraph.GENERATIONAL, const.Supergraph.TOPOLOGICAL]:
        for prune in [True, False]:
            graph = Graph(nodes=nodes, supervisor=c, graphs_raw=g, supergraph=mode, prune=prune, progress_bar=False)
            bad, nreads, sizes = static_replay(graph)
            tot+=nreads
            print(trial, list(rates), str(mode)[:4], prune, "sizes", sizes, "reads", nreads, "bad", len(bad), bad[:2])
print("total reads", tot)
