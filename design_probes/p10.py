import sys, os, random; sys.path.insert(0,'/repo')
from types import SimpleNamespace as NS
from collections import deque
import rex.asynchronous as ra
from rex.constants import Async, Clock, Jitter
def mk(rate_node, rate_in, phase_node, phase_in, skip):
    c = object.__new__(ra._AsyncConnectionWrapper)
    c._state = Async.RUNNING
    c.connection = NS(blocking=True, skip=skip, window=1, input_node=NS(phase=phase_node, rate=rate_node, name="n", log_level=50), output_node=NS(phase=phase_in, rate=rate_in, name="o"))
    c.log=lambda *a,**k: None
    c.q_ts_next_step=deque(); c.q_expected_ts_max=deque(); c.q_expected_select=deque(); c.q_ts_input=deque(); c.q_msgs=deque(); c.q_ts_max=deque()
    c.push_selection=lambda: None; c.push_ts_max=lambda: None
    c.input_node=NS(_submit=lambda *a,**k: None, push_phase_shift=None, push_step=None)
    return c
def brute(rate_node, rate_in, phase_node, phase_in, skip, N):
    pn, pi = round(phase_node,6), round(phase_in,6)
    t_high = round((1/rate_node)*N + pn, 6); t_low = round((1/rate_node)*(N-1)+pn, 6)
    cnt=0; i=0
    while True:
        t = round(i/rate_in + pi, 6)
        if t > t_high + 1.0: break
        if not t < pi:
            q=False
            if N==0:
                q = (t<=t_low and not skip) or (t<t_low and skip)
            if not q:
                q = (t_low < t <= t_high and not skip) or (t_low <= t < t_high and skip)
            cnt += q
        i+=1
    return cnt
random.seed(1); bad=0; tot=0; asserts=0
for trial in range(400):
    rn = random.choice([1,2,3,5,7,10,11,12,13,20,30,50,60,100,200, 33.3, 0.5, 17.7])
    ri = random.choice([1,2,3,5,7,10,11,12,13,20,30,50,60,100,200, 33.3, 0.5, 17.7])
    pn = round(random.uniform(0,0.3),random.choice([2,3,6,9])); pi = round(random.uniform(0,0.3),random.choice([2,3,6,9]))
    skip = random.random()<0.5
    c = mk(rn,ri,pn,pi,skip)
    total_code=0; total_brute=0
    for N in range(0,60):
        c.q_ts_next_step.append((N, 0.0)); c.q_expected_select.clear(); c.q_expected_ts_max.clear()
        try:
            c.push_expected_blocking()
        except AssertionError:
            asserts+=1; continue
        got = c.q_expected_select[-1][1]; want = brute(rn,ri,pn,pi,skip,N); tot+=1
        total_code+=got; total_brute+=want
        if got!=want:
            bad+=1
            if bad<6: print("MISMATCH", dict(rate_node=rn, rate_in=ri, phase_node=pn, phase_in=pi, skip=skip, N=N, got=got, want=want))
print("cases", tot, "mismatch", bad, "assert-failures", asserts)
