import time
from z3 import *
def T(name, add, goal_neg, to=30000):
    s=Solver(); t0=time.time(); s.set(timeout=to); s.add(add); s.add(goal_neg); r=s.check(); print(f"{name}: {r} {time.time()-t0:.2f}s"); return s if r==sat else None
# (2) apply_delay zoh. ext window arrays sent[0..C), seq[0..C); W=window, Wd=C-W ; d in [min,max]; ts
sent=Array('sent',IntSort(),RealSort()); seq=Array('seq',IntSort(),IntSort()); recv0=Array('recv0',IntSort(),RealSort())
C,W,Wd=Ints('C W Wd'); d,ts=Reals('d ts'); i,j=Ints('i j')
recv = lambda k: If(seq[k]<0, recv0[k], sent[k]+d)
# idx_max = first index with recv>ts else C   (argwhere size=1 fill C)
imax=Int('imax')
argw = And(0<=imax, imax<=C, ForAll([i], Implies(And(0<=i,i<imax), Not(recv(i)>ts))), Or(imax==C, recv(imax)>ts))
imin = imax-W
start = If(imin<0, 0, If(imin>C-W, C-W, imin))      # dynamic_slice clamps
out = lambda k: start+k                               # out[k] = ext[start+k], k in [0,W)
pre = [W>=1, Wd>=0, C==W+Wd,
       ForAll([i,j], Implies(And(0<=i,i<=j,j<C), recv(i)<=recv(j))),   # send-ordered => recv-ordered (dummy first with recv0=0 assumed <=)
       argw]
cnt_ok = imax>=W      # at most Wd not-arrived  <=> at least W arrived in ext window
# goal: out indices are exactly the last W arrived: start+W == imax
T("zoh with precondition", pre+[cnt_ok], start+W != imax)
s=T("zoh without precondition (expect sat)", pre, start+W != imax)
if s: m=s.model(); print("   model: C",m[C],"W",m[W],"imax",m[imax])
# (4) cem best-so-far: losses array L[0..N), after nan->inf all in R u {inf}: encode inf as big flag
L=Array('L',IntSort(),RealSort()); isinf=Array('isinf',IntSort(),BoolSort()); N=Int('N'); b0=Int('b0')
lt = lambda a_inf,a,b_inf,b: And(Not(a_inf), Or(b_inf, a<b))      # a<b in extended reals (no -inf)
le = lambda a_inf,a,b_inf,b: Or(b_inf, And(Not(a_inf), a<=b))
# argsort contract: b0 = index of a minimum
arg = And(0<=b0,b0<N, ForAll([i], Implies(And(0<=i,i<N), le(isinf[b0],L[b0],isinf[i],L[i]))))
old_inf=Bool('old_inf'); old=Real('old')
keep = lt(old_inf,old,isinf[b0],L[b0])          # state.bestsofar_loss < best_loss
new_inf = If(keep, old_inf, isinf[b0]); new = If(keep, old, L[b0])
k=Int('k')
T("cem best = min(old, all)", [N>=1, arg], Not(And(le(new_inf,new,old_inf,old), ForAll([k], Implies(And(0<=k,k<N), le(new_inf,new,isinf[k],L[k]))), Or(And(new_inf==old_inf, Or(new_inf, new==old)), And(new_inf==isinf[b0], Or(new_inf,new==L[b0]))))))
# (5) interp shift lemma on one segment: f(x; xp+d) = f(x-d; xp)
x,x0,x1,f0,f1,dd = Reals('x x0 x1 f0 f1 dd')
seg = lambda xq,a,b: f0 + (xq-a)*(f1-f0)/(b-a)
T("interp shift (segment)", [x0<x1], seg(x, x0+dd, x1+dd) != seg(x-dd, x0, x1))
T("interp convex bound", [x0<x1, x0<=x, x<=x1, f0<=f1], Or(seg(x,x0,x1)<f0, seg(x,x0,x1)>f1))
