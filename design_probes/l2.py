# Feasibility: (1) quantified fan-in encoding of push_phase_shift's max over blocking inputs
#              (2) nonlinear/rounding reasoning for push_expected_blocking start index
import time
from z3 import *
t0=time.time()
# (1) inputs indexed 0..n-1 ; blocking[i], head[i] (head of q_ts_max)
n = Int('n'); blocking = Array('blocking', IntSort(), BoolSort()); head = Array('head', IntSort(), RealSort())
m = Real('m'); nb = Bool('some_blocking')
i = Int('i'); j=Int('j')
ax = [n>=0,
      nb == Exists([i], And(0<=i,i<n,blocking[i])),
      Implies(nb, And(ForAll([i], Implies(And(0<=i,i<n,blocking[i]), m>=head[i])), Exists([i], And(0<=i,i<n,blocking[i], m==head[i])))),
      Implies(Not(nb), m==0)]
ts_sched, endprev, ps = Reals('ts_sched endprev ps')
def mx(*a):
    r=a[0]
    for x in a[1:]: r=If(x>r,x,r)
    return r
start = ts_sched + mx(m-ts_sched, endprev-ts_sched, ps)
S=Solver(); S.set(timeout=20000); S.add(ax); S.add(ps>=0)
k=Int('k')
goal = And(ForAll([k], Implies(And(0<=k,k<n,blocking[k]), start>=head[k])), start>=endprev, start>=ts_sched,
           Or(start==endprev, start==ts_sched+ps, And(nb, Exists([k], And(0<=k,k<n,blocking[k],start==head[k]))), And(Not(nb), start==0)))
S.add(Not(goal)); print("fan-in law:", S.check(), round(time.time()-t0,2))
# (2) R6 axioms + floor-div
t0=time.time()
R6 = Function('R6', RealSort(), RealSort())
x,y=Reals('x y')
r6ax=[ForAll([x,y], Implies(x<=y, R6(x)<=R6(y))), ForAll([x], R6(R6(x))==R6(x)), ForAll([x], And(R6(x)-x<=5e-7, x-R6(x)<=5e-7))]
tlow, ph, dt = Reals('tlow ph dt'); i0=Int('i0'); ii=Int('ii')
S=Solver(); S.set(timeout=30000); S.add(r6ax)
S.add(dt>1e-5, R6(tlow)==tlow, ToReal(i0)*dt <= tlow-ph, tlow-ph < (ToReal(i0)+1)*dt)
S.add(ii<i0, ii>=0)
S.push(); S.add(R6(ToReal(ii)*dt+ph) > tlow); print("no qualifying before i0 (non-skip):", S.check(), round(time.time()-t0,2)); S.pop()
S.push(); S.add(R6(ToReal(ii)*dt+ph) >= tlow); print("no qualifying before i0 (skip):", S.check(), round(time.time()-t0,2)); S.pop()
